"""
C03 - the Goose model interface (LieselInterface / GooseModel) is pure and equivalent to
direct assignment; put/get and non-mutation laws of Dict/Dataclass/NamedTuple interfaces.

One interface instance carries a private model copy: that is shared mutable state. The
check explores CALL HISTORIES on it with core.closure: a state is the history that
reaches it, canonicalised by a digest of the private model's mutable fields
(_value / _outdated of every node, tracer leftovers, auto-update flag) plus the last
result; every transition (one more interface call) is executed on a FRESH interface by
replaying the history through the public API and is checked against
  (1) a fresh oracle model never touched by an interface (direct assignment + update()),
  (2) a differential table: identical (position, state, mode) arguments must give a
      bit-identical result whatever the history,
  (3) deep snapshots of the input state, the position and the user's model,
  (4) extract_position round trips (variable-name and node-name keys),
  (5) log_prob == fresh model == float64 scipy reference.
"""

from __future__ import annotations

import hashlib
import itertools
import os
import traceback

import numpy as np

from mc import core
from mc.ref import c02_gstat as G

PROPERTY = "C03"
RULE = (
    "per (program, user-model auto_update flag, interface class): part A = explicit-state BFS to CLOSURE over eager "
    "update_state calls with positions {var-name key, node-name key, two keys, empty} x states {user model state, "
    "sibling model state, previous result}; part B = BFS to a depth bound over the same calls in modes {eager, jax.jit, "
    "jax.vmap over a batch of 3 (position, state) pairs} (positions {var key, two keys}). Canonical state = digest of "
    "the private model copy's _value/_outdated fields (tracers marked) + last result. Every transition is replayed on a "
    "fresh interface and checked by 5 oracles. Simple interfaces: all key subsets x value lattice x call chains of "
    "length 2. Distinct outcome = (program, auto flag, mode, position kind, state kind, which nodes changed)."
)
ASSUMPTIONS = [
    "model states passed to the interface are up to date (documented precondition) and complete (all nodes)",
    "name resolution: a key that is both a node name and a variable name denotes the node (documented order)",
    "result comparison is exact for purely eager histories, rtol/atol 2e-6 when a jit/vmap call is involved; log_prob vs float64 scipy reference at 2e-5 * sum|terms|",
    "the canonical state covers every mutable field of the private copy that the code reads (node _value/_outdated, model _auto_update)",
    "trusted: jax.jit / jax.vmap semantics; TFP densities (checked against scipy in C02)",
]

REL = 2e-5
ABS = 2e-5


# ---------------------------------------------------------------------------------
# programs
# ---------------------------------------------------------------------------------


def programs() -> dict[str, dict]:
    S, W, N, C, R = G.strong, G.weak, G.N, G.C, G.R
    out = {}
    out["hier"] = {
        "kind": "gb", "user": {},
        "items": [
            S("m", G.M, N(C(0.0), C(8.0)), flag="par"),
            S("mu", G.MU, N(R("m"), C(2.0)), flag="par"),
            S("sigma", G.SIG, G.scale_prior("Gamma"), flag="par", per_obs=False),
            W("eta", "affine", [R("mu")], {"a": 0.5, "b": -2.0}),
            S("y", G.Y3, N(R("eta"), R("sigma")), flag="obs"),
            # not ancestors of the log-probability: predictions
            W("pred", "exp", [R("eta")], wrap="calc"),
            W("yhat", "affine", [R("pred")], {"a": 1.0, "b": 0.5}),
            W("tpred", "sq", [R("sigma")], wrap="tcalc"),
        ],
        "pos": ["mu", "sigma"],
    }
    sk = G.skeletons()
    out["glmp"] = {**G.instantiate("glmp", sk["GLMP"], sk["GLMP"]["canon"], (True, False, True, True), "star"), "pos": ["beta", "tau"]}
    out["transf"] = {
        "kind": "gb", "user": {},
        "items": [
            S("r", [1.5, 0.75, 2.25], N(C(1.0), C(1.0)), flag="par"),
            S("sigma", G.ZSIG, {"fam": "Gamma", "args": {"concentration": C(2.0), "rate": R("r")}}, flag="par", transform={"how": "exp_inst", "fam": "Gamma"}, init=1.5),
            S("y", G.Y3, N(C(0.5), R("sigma")), flag="obs"),
            W("pred", "sq", [R("sigma")], wrap="calc"),
        ],
        "pos": ["sigma_transformed", "r"],
    }
    out["clash"] = {
        "kind": "gb", "user": {},
        "items": [
            S("a_hyp", [1.5, 0.5, 2.75], None, wrap="value", node_name="a"),
            S("a", G.MU, N(C(0.0), C(4.0)), flag="par"),
            S("y", G.Y3, N(R("a"), R("a_hyp")), flag="obs"),
        ],
        # the key "a" is a node name (the hyper-parameter) AND a variable name
        "menu": {
            "v1": {"a": ("a_hyp", 1)},
            "n2": {"a_value": ("a", 2)},
            "vn": {"a": ("a_hyp", 2), "a_value": ("a", 1)},
        },
    }
    # an optional input: a NON-transient node whose value is None in one state and a number
    # in another (the Calc branches on `is None`)
    out["optnone"] = {
        "kind": "gb", "user": {},
        "items": [
            S("mu", G.MU, N(C(0.0), C(4.0)), flag="par"),
            S("sigma", G.SIG, G.scale_prior("Gamma"), flag="par"),
            {"k": "opt", "name": "off", "lattice": [None, 1.5]},
            W("eta", "add_opt", [R("mu"), R("off")]),
            S("y", G.Y3, N(R("eta"), R("sigma")), flag="obs"),
        ],
        "pos": ["mu", "sigma"],
    }
    # a variable transformed with a bijector CLASS whose argument is a model quantity
    out["transfvar"] = {
        "kind": "gb", "user": {},
        "items": [
            S("s", [2.0, 0.5, 4.0], G.scale_prior("Gamma"), flag="par"),
            S("x", [0.25, -0.75, 1.25], N(C(0.5), C(2.0)), flag="par", transform={"how": "scale_cls", "scale": R("s"), "fam": "Normal"}, init=1.0),
            S("y", G.Y3, N(R("x"), C(1.5)), flag="obs"),
        ],
        "pos": ["s", "x_transformed"],
    }
    dr = [p for p in G.distreg_programs("quick") if p["label"] == "DR/Normal/np_def/0"][0]
    out["distreg"] = {**dr, "pos": ["loc_np0_beta", "loc_np0_tau2"]}
    ulp = [p for p in G.family_B("quick") if p["label"] == "B5/prob/dists/TTT"][0]
    out["userlp"] = {**ulp, "pos": ["mu", "sigma"]}
    return out


def bounds(tier):
    return {
        "programs": sorted(programs()),
        "interface_classes": ["LieselInterface", "GooseModel (hier only)", "DictInterface", "DataclassInterface", "NamedTupleInterface"],
        "user_model_auto_update": [True, False],
        "part_A": "eager calls, 4 positions x 3 states, BFS to closure of the canonical state space (cap 400 states)",
        "part_B": f"modes eager/jit/vmap, 2 positions x 3 states, all histories of depth <= {2 if tier == 'quick' else 3}",
        "vmap_batch": 3,
        "lattice_values": 3,
    }


def units(tier, seed):
    out = []
    names = list(programs())
    for part in ("A", "B"):
        for prog in names:
            for auto in (True, False):
                depth = None if part == "A" else (2 if tier == "quick" else 3)
                out.append({"part": part, "prog": prog, "auto": auto, "cls": "LieselInterface", "depth": depth})
    out.insert(1, {"part": "simple"})
    out.append({"part": "A", "prog": "hier", "auto": False, "cls": "GooseModel", "depth": None})
    out.append({"part": "B", "prog": "hier", "auto": False, "cls": "GooseModel", "depth": 1 if tier == "quick" else 2})
    return out


# ---------------------------------------------------------------------------------
# helpers
# ---------------------------------------------------------------------------------


class LieselRaised(Exception):
    pass


def _guard(fn, *a, **k):
    try:
        return fn(*a, **k)
    except Exception as e:
        inner = e
        while inner.__cause__ is not None:
            inner = inner.__cause__
        tb = traceback.extract_tb(inner.__traceback__) or traceback.extract_tb(e.__traceback__)
        if os.path.realpath(tb[-1].filename).startswith(os.path.realpath(core.VERIF)):
            raise
        raise LieselRaised(f"{type(inner).__name__}: {(str(inner).splitlines() or [''])[0][:300]}") from e


def _is_tracer(x):
    import jax

    return isinstance(x, jax.core.Tracer)


def _leaf_bytes(v):
    if v is None:
        return b"N"
    if _is_tracer(v):
        return b"T"
    a = np.asarray(v)
    return str(a.dtype).encode() + str(a.shape).encode() + a.tobytes()


def state_digest(state, with_repr=False) -> str:
    """Digest of the VALUES of a model state (bit-exact); the python type of the leaves
    (python float/bool vs array) is deliberately not part of it."""
    h = hashlib.sha256()
    for name in sorted(state):
        ns = state[name]
        h.update(name.encode())
        v = ns.value
        if v is None or _is_tracer(v):
            h.update(_leaf_bytes(v))
        else:
            a = np.asarray(v)
            h.update(np.asarray(a, dtype=np.float64).tobytes() + str(a.shape).encode())
        o = ns.outdated
        h.update(b"T" if _is_tracer(o) else (b"1" if bool(np.all(np.asarray(o))) else b"0"))
    return h.hexdigest()[:16]


def private_digest(model) -> str:
    """Digest of the fields of the private copy that the code can read back: Value
    nodes: _value; caching nodes: _value and _outdated; transient nodes compute value and
    outdated on the fly, their raw fields are unobservable and left out."""
    from liesel.model.nodes import TransientNode, Value

    h = hashlib.sha256()
    h.update(b"A" if model._auto_update else b"a")
    for name in sorted(model._nodes):
        n = model._nodes[name]
        if isinstance(n, TransientNode):
            continue
        h.update(name.encode())
        v = n._value
        if v is None or _is_tracer(v):
            h.update(_leaf_bytes(v))
        else:
            try:
                a = np.asarray(v, dtype=np.float64)
                h.update(a.tobytes() + str(a.shape).encode())
            except Exception:
                h.update(repr(type(v)).encode())
        if not isinstance(n, Value):
            o = n._outdated
            h.update(b"T" if _is_tracer(o) else (b"1" if bool(np.all(np.asarray(o))) else b"0"))
    return h.hexdigest()[:16]


def snapshot_state(state):
    """Deep snapshot including leaf identity."""
    return {name: (id(ns.value), None if ns.value is None else np.array(ns.value, copy=True), ns.outdated, id(ns)) for name, ns in state.items()}


def state_unchanged(snap, state):
    if list(snap) != list(state):
        return f"keys changed: {sorted(set(snap) ^ set(state))}"
    for name, (vid, val, outd, nsid) in snap.items():
        ns = state[name]
        if id(ns) != nsid or id(ns.value) != vid:
            return f"entry {name} was replaced"
        if _is_tracer(ns.value):
            return f"entry {name} holds a tracer"
        if val is not None and not np.array_equal(np.asarray(ns.value), val):
            return f"value of {name} changed from {val} to {ns.value}"
        if bool(np.all(np.asarray(ns.outdated))) != bool(np.all(np.asarray(outd))):
            return f"outdated flag of {name} changed"
    return None


class Lab:
    """User model + sibling + oracle model + bookkeeping for one (program, auto, cls)."""

    MODES = ("eager", "jit", "vmap")

    def __init__(self, res, unit, prog_name, program, auto, cls_name):
        import jax
        import jax.numpy as jnp

        import liesel.goose as gs
        import liesel.model as lsl
        from mc import gstat

        self.jax, self.jnp = jax, jnp
        self.res, self.unit = res, unit
        self.prog_name, self.program, self.auto, self.cls_name = prog_name, program, auto, cls_name
        self.cls = gs.LieselInterface if cls_name == "LieselInterface" else lsl.GooseModel
        self.tag = f"{prog_name}:{'auto' if auto else 'manual'}:{cls_name}"
        self.user = gstat.BuiltStat(program)
        self.user.model.auto_update = auto
        self.sib = gstat.BuiltStat(program)
        self.oracle = gstat.BuiltStat(program)
        self.assignables = {a["name"]: a for a in self.user.assignable}
        for a in self.sib.assignable:
            self.sib.assign(a["target"], a["lattice"][-1], a["via"])
        self.sib.model.update()
        self.val_orig = {k: (None if v is None else np.asarray(v)) for k, v in self.user.current_valuation().items()}
        self.val_sib = {k: (None if v is None else np.asarray(v)) for k, v in self.sib.current_valuation().items()}
        self.orig_state = self.user.model.state
        self.sib_state = self.sib.model.state
        self.user_snap = self._model_snapshot(self.user.model)
        self.node_names = set(self.user.model.nodes)
        self.var_names = set(self.user.model.vars)
        self.menu = self._menu()
        self.expected_cache: dict = {}
        self.table: dict = {}
        self.seen: set = set()
        self.stale_seen = 0

    # -- menus ------------------------------------------------------------------
    def _resolve(self, key):
        """key -> (assignable name, via) by the documented rule: node names first."""
        m = self.user.model
        if key in m.nodes:
            for a in self.assignables.values():
                vn = a["target"] if a["via"] == "node" else m.vars[a["target"]].value_node.name
                if vn == key:
                    return a["name"]
            raise RuntimeError(f"position key {key} is a node that is not assignable")
        for a in self.assignables.values():
            if a["via"] == "var" and a["target"] == key:
                return a["name"]
        raise RuntimeError(f"unknown key {key}")

    def _menu(self):
        """position id -> {key: (assignable name, lattice index)}"""
        m = self.user.model
        if "menu" in self.program:
            raw = self.program["menu"]
            out = {}
            for pid, d in raw.items():
                out[pid] = {}
                for key, (what, idx) in d.items():
                    out[pid][key] = (self._resolve(key), idx)
            # harness self-check of the clash program: "a" must be the hyper-parameter node
            if self.prog_name == "clash" and (out["v1"]["a"][0] != "a_hyp" or out["n2"]["a_value"][0] != "a"):
                raise RuntimeError("clash menu wrong")
            out["e"] = {}
            return out
        a0, a1 = self.program["pos"]
        if self.assignables[a0]["via"] != "var" or self.assignables[a0]["target"] != a0:
            raise RuntimeError("first position variable must be a plain variable")
        t1 = self.assignables[a1]["target"]
        n1 = t1 if self.assignables[a1]["via"] == "node" else m.vars[t1].value_node.name
        last = lambda a: len(self.assignables[a]["lattice"]) - 1  # noqa: E731
        return {
            "v1": {a0: (a0, 1)},
            "n2": {n1: (a1, last(a1))},
            "vn": {a0: (a0, last(a0)), n1: (a1, 1)},
            "e": {},
        }

    def position(self, pid, variant=0):
        """Concrete position dict; variant shifts the lattice index (for vmap batches)."""
        jnp = self.jnp
        out, upd = {}, {}
        for key, (aname, idx) in self.menu[pid].items():
            lat = self.assignables[aname]["lattice"]
            v = lat[(idx + variant) % len(lat)]
            out[key] = jnp.asarray(v, dtype=jnp.float32)
            upd[aname] = np.asarray(G.f64(v))
        return out, upd

    # -- oracle model -------------------------------------------------------------
    def expected(self, valuation):
        key = tuple((k, b"None" if v is None else np.asarray(v).tobytes()) for k, v in sorted(valuation.items()))
        if key not in self.expected_cache:
            o = self.oracle
            o.model.auto_update = False
            for a in o.assignable:
                o.assign(a["target"], valuation[a["name"]], a["via"])
            o.model.update()
            st = o.model.state
            ref = G.evaluate(self.program, valuation)
            self.expected_cache[key] = (st, ref)
        return self.expected_cache[key]

    @staticmethod
    def _model_snapshot(model):
        from liesel.model.nodes import TransientNode

        nodes = {}
        for n, node in model._nodes.items():
            if isinstance(node, TransientNode):
                nodes[n] = (None, None, node.outdated)  # computed on the fly
            else:
                nodes[n] = (id(node._value), None if node._value is None else np.array(node._value, copy=True), node.outdated)
        return {"auto": model.auto_update, "nodes": nodes, "flags": {v: (var.observed, var.parameter) for v, var in model.vars.items()}}

    def user_model_problem(self):
        from liesel.model.nodes import TransientNode

        m = self.user.model
        s = self.user_snap
        if m.auto_update != s["auto"]:
            return "auto_update flag of the user's model changed"
        if set(m._nodes) != set(s["nodes"]):
            return "node set of the user's model changed"
        for n, (vid, val, outd) in s["nodes"].items():
            node = m._nodes[n]
            if _is_tracer(node._value) or _is_tracer(node._outdated):
                return f"user's model node {n} holds a tracer"
            if node.outdated != outd:
                return f"user's model node {n}: outdated flag changed to {node.outdated}"
            if isinstance(node, TransientNode):
                continue
            if (node._value is None) != (val is None) or (val is not None and not np.array_equal(np.asarray(node._value), val)):
                return f"user's model node {n}: value changed from {val} to {node._value}"
            if id(node._value) != vid:
                return f"user's model node {n}: value object replaced"
        for v, fl in s["flags"].items():
            if (m.vars[v].observed, m.vars[v].parameter) != fl:
                return f"flags of {v} changed"
        return None

    # -- violations -----------------------------------------------------------------
    def fail(self, check, sig, case, msg):
        if (check, sig) in self.seen:
            return
        self.seen.add((check, sig))
        self.res.violation(check, sig, case, f"[{self.tag}] {msg}")

    # -- executing a history -----------------------------------------------------------
    def stack_states(self, states):
        jnp = self.jnp
        NodeState = type(next(iter(states[0].values())))
        out = {}
        for name in states[0]:
            vals = [s[name].value for s in states]
            value = None if vals[0] is None else jnp.stack([jnp.asarray(v, dtype=jnp.float32) if not hasattr(v, "dtype") else jnp.asarray(v) for v in vals])
            outd = jnp.stack([jnp.asarray(s[name].outdated, dtype=bool) for s in states])
            out[name] = NodeState(value, outd)
        return out

    @staticmethod
    def unstack(state, i):
        NodeState = type(next(iter(state.values())))
        return {n: NodeState(None if ns.value is None else ns.value[i], ns.outdated[i]) for n, ns in state.items()}

    def run_history(self, hist, check_last=True):
        """
        Replays `hist` (list of (pid, sid, mode)) on a FRESH interface. Returns
        dict(canon, problems) - oracles run on the last call only (the prefix was checked
        when it was the last call of a shorter history).
        """
        jax = self.jax
        before = self.user_model_problem()
        if before:
            raise RuntimeError(f"user model already modified before the history: {before}")
        try:
            itf = _guard(self.cls, self.user.model)
        except LieselRaised as e:
            self.fail("raises", f"constructor@{self.tag}", {"history": hist}, f"constructing the interface raised {e}")
            return None
        prob = self.user_model_problem()
        if prob:
            self.fail("purity", f"constructor-modifies-user-model@{self.tag}", {"history": hist}, f"after constructing the interface: {prob}")
            # restore for the following histories
            return None
        jitted = None
        jit_sigs: set = set()
        prev, prev_val, pure, prev_mode = None, None, True, None
        earlier: list = []  # (index, returned state, digest at return time)
        fixed_digests = {"orig": state_digest(self.orig_state), "sib": state_digest(self.sib_state)}
        for k, (pid, sid, mode) in enumerate(hist):
            last = k == len(hist) - 1
            if sid == "orig":
                s, sval, s_pure = self.orig_state, self.val_orig, True
            elif sid == "sib":
                s, sval, s_pure = self.sib_state, self.val_sib, True
            else:
                s, sval, s_pure = prev, prev_val, pure
            pos, upd = self.position(pid)
            new_val = {**sval, **upd}
            snap_s = snapshot_state(s) if last and check_last else None
            pos_ids = {kk: id(v) for kk, v in pos.items()}
            try:
                if mode == "eager":
                    out = _guard(itf.update_state, pos, s)
                    outs, exps, poss = [out], [new_val], [pos]
                elif mode == "jit":
                    if jitted is None:
                        jitted = jax.jit(itf.update_state)
                        self._jits = getattr(self, "_jits", 0) + 1
                        if self._jits % 64 == 0:
                            # every history jits afresh; drop the executables of dead wrappers
                            import gc

                            gc.collect()
                            jax.clear_caches()
                    # what the jit cache of this wrapper has seen is part of the state
                    jit_sigs.add((pid, sid if sid != "prev" else f"prev-{prev_mode}"))
                    out = _guard(jitted, pos, s)
                    outs, exps, poss = [out], [new_val], [pos]
                else:
                    # batch of 3 (position, state) pairs: the chosen one + two fixed others
                    p1, u1 = self.position(pid, 1)
                    p2, u2 = self.position(pid, 2)
                    bpos = {kk: self.jnp.stack([pos[kk], p1[kk], p2[kk]]) for kk in pos}
                    comp = [(self.orig_state, self.val_orig), (self.sib_state, self.val_sib)]
                    none_sig = lambda st: tuple(n for n in sorted(st) if st[n].value is None)  # noqa: E731
                    comp = [(st, vl) if none_sig(st) == none_sig(s) else (s, sval) for st, vl in comp]
                    bstate = self.stack_states([s, comp[0][0], comp[1][0]])
                    bout = _guard(jax.vmap(itf.update_state, in_axes=(0, 0)), bpos, bstate)
                    outs = [self.unstack(bout, i) for i in range(3)]
                    exps = [new_val, {**comp[0][1], **u1}, {**comp[1][1], **u2}]
                    poss = [pos, p1, p2]
                    out = outs[0]
            except LieselRaised as e:
                self.fail("raises", f"update_state@{self.tag}/{mode}", {"history": hist}, f"update_state raised {e} in history {hist}")
                return None
            step_pure = s_pure and mode == "eager"
            # results returned earlier (and the two fixed states) must not change any more
            damaged = None
            for j, st, dg in earlier:
                if st is not out and state_digest(st) != dg:
                    damaged = f"the state returned by call #{j} ({hist[j]}) was modified by call #{k} ({hist[k]})"
                    break
                if st is out and sid != "prev":
                    damaged = f"call #{k} ({hist[k]}) returned the same dict object as call #{j}"
                    break
            if damaged is None and (state_digest(self.orig_state) != fixed_digests["orig"] or state_digest(self.sib_state) != fixed_digests["sib"]):
                damaged = f"a model state that was not even an argument was modified by call #{k} ({hist[k]})"
            if damaged is None and out is s:
                damaged = f"call #{k} ({hist[k]}) returned its input dict object"
            if damaged is not None:
                if last and check_last:
                    self.fail("purity", f"result-aliasing@{self.tag}/{mode}", {"history": hist}, f"{damaged} (returned states share storage)")
                return None
            if last and check_last:
                self.check_call(itf, hist, pid, sid, mode, s, snap_s, pos, pos_ids, outs, exps, poss, step_pure)
            if any(_is_tracer(ns.value) or _is_tracer(ns.outdated) for ns in out.values()):
                return None  # reported by check_call when this call was the last one; nothing can follow
            earlier.append((k, out, state_digest(out)))
            prev, prev_val, pure, prev_mode = out, new_val, step_pure, mode
        canon = (private_digest(itf._model), None if prev is None else state_digest(prev), tuple(sorted(jit_sigs)))
        return {"canon": canon, "hist": list(hist)}

    # -- the oracles ----------------------------------------------------------------------
    def check_call(self, itf, hist, pid, sid, mode, s, snap_s, pos, pos_ids, outs, exps, poss, pure):
        res = self.res
        case = {"history": hist, "position": {k: np.asarray(v) for k, v in pos.items()}, "state": sid, "mode": mode}
        where = f"{self.tag}/{mode}"
        changed = set()
        for bi, (out, new_val, p) in enumerate(zip(outs, exps, poss)):
            exp_state, ref = self.expected(new_val)
            # (1) equivalence to direct assignment on a fresh model
            if set(out) != set(exp_state):
                self.fail("result", f"keys@{where}", case, f"result has keys {sorted(set(out) ^ set(exp_state))} more/less than the model state")
                continue
            for name in sorted(exp_state):
                g, w = out[name], exp_state[name]
                if _is_tracer(g.value) or _is_tracer(g.outdated):
                    self.fail("result", f"tracer-leak@{where}", case, f"result entry {name} holds a leaked tracer after history {hist}")
                    continue
                if bool(np.any(np.asarray(g.outdated))):
                    self.fail("result", f"outdated:{name}@{where}", case, f"node {name} is flagged outdated in the result of {hist[-1]} after {hist[:-1]}")
                if (g.value is None) != (w.value is None):
                    self.fail("result", f"none:{name}@{where}", case, f"node {name}: value {g.value} vs fresh model {w.value}")
                    continue
                if w.value is None:
                    continue
                ga, wa = np.asarray(g.value, dtype=np.float64), np.asarray(w.value, dtype=np.float64)
                if ga.shape != wa.shape:
                    self.fail("result", f"shape:{name}@{where}", case, f"node {name}: shape {ga.shape} vs fresh model {wa.shape}")
                    continue
                ok = np.array_equal(ga, wa) if pure else np.allclose(ga, wa, rtol=2e-6, atol=2e-6)
                if not ok:
                    self.fail("result", f"value:{name}@{where}", case,
                              f"node {name} = {ga} but a fresh model with the values assigned directly and fully updated has {wa} (position {case['position']}, state {sid}, history {hist})")
                if bi == 0 and s[name].value is not None and not _is_tracer(s[name].value) and not np.array_equal(np.asarray(s[name].value, dtype=np.float64), ga):
                    changed.add(name)
            # (4) extract_position round trip
            keys = list(p)
            try:
                got = _guard(itf.extract_position, keys, out)
            except LieselRaised as e:
                self.fail("raises", f"extract_position@{where}", case, f"extract_position raised {e}")
                got = None
            if got is not None:
                if list(got) != keys:
                    self.fail("extract", f"keys@{where}", case, f"extract_position returned keys {list(got)} for {keys}")
                else:
                    for kk in keys:
                        if _is_tracer(got[kk]):
                            self.fail("extract", f"tracer-leak@{where}", case, f"extract_position returns a leaked tracer for {kk}")
                        elif got[kk] is None or not np.array_equal(np.asarray(got[kk]), np.asarray(p[kk])):
                            self.fail("extract", f"roundtrip:{pid}@{where}", case, f"extract_position({keys}) of the result gives {kk}={got[kk]} but the position was {p[kk]}")
                # both names of a variable give the same value
                for aname, a in self.assignables.items():
                    t = a["target"]
                    if a["via"] == "var" and t not in self.node_names:
                        vn = self.user.model.vars[t].value_node.name
                        two = _guard(itf.extract_position, [t, vn], out)
                        if _is_tracer(two[t]) or _is_tracer(two[vn]):
                            self.fail("extract", f"tracer-leak@{where}", case, f"extract_position returns a leaked tracer for {t}")
                        elif two[t] is None or not np.array_equal(np.asarray(two[t]), np.asarray(two[vn])):
                            self.fail("extract", f"alias@{where}", case, f"extract_position gives {t}={two[t]} but {vn}={two[vn]}")
            # (5) log-probability
            lp = _guard(itf.log_prob, out)
            userlp = "log_prob" in (self.program.get("user") or {})
            if _is_tracer(lp):
                self.fail("logprob", f"tracer-leak@{where}", case, f"interface.log_prob(result) is a leaked tracer after history {hist}")
            elif lp is None:
                self.fail("logprob", "None@user-log_prob-node" if userlp else f"None@{where}", case,
                          f"interface.log_prob(result) is None (model.log_prob at these values = {ref['log_prob']:.5f})")
            else:
                if not abs(float(lp) - ref["log_prob"]) <= REL * ref["scale"]["log_prob"] + ABS:
                    self.fail("logprob", f"value@{where}", case, f"interface.log_prob(result) = {float(lp)} but the reference joint log-density is {ref['log_prob']}")
        # (2) history independence, differential and bit-exact
        out = outs[0]
        key = (pid, mode, state_digest(s))
        dg = state_digest(out)
        first = self.table.setdefault(key, (dg, list(hist)))
        if first[0] != dg:
            self.fail("history", f"{pid}/{sid}@{where}", {**case, "other_history": first[1]},
                      f"update_state({pid}, {sid}) in mode {mode} gives a different result after history {hist[:-1]} than after {first[1][:-1]}")
        # (3) purity
        prob = state_unchanged(snap_s, s)
        if prob:
            self.fail("purity", f"input-state@{where}", case, f"the input model state was modified: {prob}")
        for kk, v in pos.items():
            if id(v) != pos_ids[kk] or _is_tracer(v):
                self.fail("purity", f"position@{where}", case, f"the position entry {kk} was modified")
        prob = self.user_model_problem()
        if prob:
            self.fail("purity", f"user-model@{where}", case, f"{prob} (after history {hist})")
            raise _UserModelDamaged()
        res.outcome(self.prog_name, self.auto, mode, pid, sid, ",".join(sorted(changed))[:120])


class _UserModelDamaged(Exception):
    pass


def explore(res, unit, tier):
    progs = programs()
    program = progs[unit["prog"]]
    with_quiet_lab = Lab(res, unit, unit["prog"], program, unit["auto"], unit["cls"])
    lab = with_quiet_lab
    part = unit["part"]
    pids = ["v1", "n2", "vn", "e"] if part == "A" else ["v1", "vn"]
    modes = ["eager"] if part == "A" else list(Lab.MODES)
    all_ops = [(p, s, m) for m in modes for p in pids for s in ("orig", "sib", "prev")]
    first_ops = [op for op in all_ops if op[1] != "prev"]

    init = lab.run_history([])
    if init is None:
        return
    dead = {"n": 0}

    def enabled(snap):
        if snap.get("dead"):
            return []
        if not snap["hist"]:
            if unit.get("first") is not None:
                return [first_ops[unit["first"]]]
            return first_ops
        return all_ops

    def step(snap, op):
        try:
            nxt = lab.run_history(snap["hist"] + [op])
        except _UserModelDamaged:
            # the user's model is part of the lab: rebuild everything, stop this branch
            nxt = None
            lab.__init__(res, unit, unit["prog"], program, unit["auto"], unit["cls"])
        res.executions += 1
        res.transitions += len(snap["hist"]) + 1
        if nxt is None:
            dead["n"] += 1
            return {"canon": ("dead", dead["n"]), "hist": snap["hist"] + [op], "dead": True}
        return nxt

    out = core.closure(init, enabled, step, lambda s: s["canon"], None, max_states=400 if part == "A" else 6000, max_depth=unit["depth"])
    res.states += out["states"]
    res.extra[f"depth[{unit['prog']}:{'auto' if unit['auto'] else 'manual'}:{unit['cls']}:{part}]"] = f"{out['max_depth']} ({'closed' if out['closed'] else 'bounded'}, {out['states']} states)"
    if part == "A" and not out["closed"]:
        res.caps.append("partA_max_states")
    if part == "B" and out["states"] >= 6000:
        res.caps.append("partB_max_states")
    res.note([unit["prog"], unit["auto"], part, out["states"], out["transitions"], sorted(lab.table.values())[:50]])
    deepest = out["history"](list(out["seen"])[-1])
    res.sample({"unit": unit, "states": out["states"], "transitions": out["transitions"], "closed": out["closed"], "deepest_history": deepest}, limit=1)


# ---------------------------------------------------------------------------------
# Dict / Dataclass / NamedTuple interfaces
# ---------------------------------------------------------------------------------


def simple_interfaces(res, unit):
    import dataclasses
    from typing import NamedTuple

    import jax
    import jax.numpy as jnp
    from scipy import stats

    import liesel.goose as gs

    class NT(NamedTuple):
        x: object
        loc: object
        scale: object

    @dataclasses.dataclass
    class DC:
        x: object
        loc: object
        scale: object

    @dataclasses.dataclass
    class DCP:
        """a state class like liesel's own kernel states: __post_init__ pre-processes a
        constructor argument and there is a field that is not an __init__ argument"""

        x: object
        loc: object
        scale: object
        cache: object = dataclasses.field(init=False)

        def __post_init__(self):
            self.x = self.x - 1.0
            self.cache = jnp.asarray(0.0, dtype=jnp.float32)

    fields = ("x", "loc", "scale")
    kfields = {"dict": fields, "nt": fields, "dc": fields, "dcp": fields + ("cache",)}
    lattice = {"x": [0.25, -1.5], "loc": [0.5, 2.0], "scale": [1.5, 0.75], "cache": [3.0, -2.0]}
    base_all = {"x": [1.0, -0.5, 2.0], "loc": 0.0, "scale": 2.0, "cache": 7.5}

    def lp_dict(s):
        return jnp.sum(-0.5 * ((s["x"] - s["loc"]) / s["scale"]) ** 2 - jnp.log(s["scale"]) - 0.5 * jnp.log(2 * jnp.pi))

    def lp_attr(s):
        return lp_dict({f: getattr(s, f) for f in fields})

    def mk(kind, vals):
        arr = {f: jnp.asarray(v, dtype=jnp.float32) for f, v in vals.items()}
        if kind == "dcp":
            s = DCP(arr["x"] + 1.0, arr["loc"], arr["scale"])
            s.cache = arr["cache"]
            for f in kfields[kind]:
                if not np.array_equal(np.asarray(getattr(s, f)), np.asarray(arr[f])):
                    raise RuntimeError("harness: DCP construction")
            return s
        return arr if kind == "dict" else (NT(**arr) if kind == "nt" else DC(**arr))

    def get(kind, s, f):
        return s[f] if kind == "dict" else getattr(s, f)

    def fail(check, sig, case, msg):
        res.violation(check, sig, case, msg)

    kinds = {"dict": (gs.DictInterface, lp_dict), "nt": (gs.NamedTupleInterface, lp_attr), "dc": (gs.DataclassInterface, lp_attr),
             "dcp": (gs.DataclassInterface, lp_attr)}
    for kind, (cls, lpf) in kinds.items():
        flds = kfields[kind]
        base_vals = {f: base_all[f] for f in flds}
        subsets = [c for r in range(0, len(flds) + 1) for c in itertools.combinations(flds, r)]
        itf = cls(lpf)
        modes = ("eager", "jit", "vmap") if kind in ("dict", "nt") else ("eager",)
        jitted = jax.jit(itf.update_state)
        table = {}
        for mode in modes:
            for sub1 in subsets:
                for i1 in range(2 if sub1 else 1):
                    for sub2 in subsets:
                        for i2 in range(2 if sub2 else 1):
                            # chain of two calls on the same interface instance: s0 -> s1 -> s2
                            s0 = mk(kind, base_vals)
                            vals = dict(base_vals)
                            cur = s0
                            for step, (sub, i) in enumerate(((sub1, i1), (sub2, i2))):
                                p = {f: jnp.asarray(lattice[f][i] if f != "x" else [lattice[f][i]] * 3, dtype=jnp.float32) for f in sub}
                                p_ids = {f: id(v) for f, v in p.items()}
                                snap = {f: (id(get(kind, cur, f)), np.array(get(kind, cur, f))) for f in flds}
                                cur_id = id(cur)
                                case = {"interface": kind, "mode": mode, "calls": [[list(sub1), i1], [list(sub2), i2]], "step": step}
                                if mode == "eager":
                                    try:
                                        new = _guard(itf.update_state, p, cur)
                                    except LieselRaised as e:
                                        fail("simple", f"raises@{kind}/{mode}", case, f"update_state({list(sub)}) raised {e}")
                                        break
                                elif mode == "jit":
                                    new = jitted(p, cur)
                                else:
                                    bp = {f: jnp.stack([v, v + 1.0]) for f, v in p.items()}
                                    bs = jax.tree_util.tree_map(lambda v: jnp.stack([v, v]), cur)
                                    bnew = jax.vmap(itf.update_state)(bp, bs)
                                    new = jax.tree_util.tree_map(lambda v: v[0], bnew)
                                    other = jax.tree_util.tree_map(lambda v: v[1], bnew)
                                    for f in sub:
                                        if not np.array_equal(np.asarray(get(kind, other, f)), np.asarray(p[f] + 1.0)):
                                            fail("simple", f"vmap-batch@{kind}", case, f"batch element 1: field {f} = {get(kind, other, f)}")
                                vals = {**vals, **{f: np.asarray(p[f]) for f in sub}}
                                res.transitions += 1
                                # put/get + frame
                                got = itf.extract_position(list(sub), new)
                                if list(got) != list(sub):
                                    fail("simple", f"extract-keys@{kind}", case, f"extract_position keys {list(got)} != {list(sub)}")
                                for f in flds:
                                    want = np.broadcast_to(np.asarray(vals[f], dtype=np.float32), np.shape(get(kind, new, f)))
                                    if not np.array_equal(np.asarray(get(kind, new, f)), want):
                                        fail("simple", f"{'put-get' if f in sub else 'frame'}@{kind}/{mode}", case, f"field {f} = {get(kind, new, f)} expected {want}")
                                # non-mutation of the input state and of the position
                                if id(cur) != cur_id:
                                    raise RuntimeError("harness: input state object replaced")
                                for f in flds:
                                    v = get(kind, cur, f)
                                    if id(v) != snap[f][0] or not np.array_equal(np.asarray(v), snap[f][1]):
                                        fail("simple", f"input-mutated@{kind}/{mode}", case, f"field {f} of the INPUT state changed to {v}")
                                if sub and new is cur:
                                    fail("simple", f"input-returned@{kind}/{mode}", case, "update_state returned the input object itself")
                                for f, v in p.items():
                                    if id(v) != p_ids[f]:
                                        fail("simple", f"position-mutated@{kind}", case, f"position entry {f} replaced")
                                if set(p) != set(sub):
                                    fail("simple", f"position-mutated@{kind}", case, "position keys changed")
                                # log_prob
                                lp = float(itf.log_prob(new))
                                want = float(np.sum(stats.norm.logpdf(np.asarray(vals["x"], dtype=np.float64), np.float64(vals["loc"]), np.float64(vals["scale"]))))
                                if not abs(lp - want) <= 2e-5 * (abs(want) + 1):
                                    fail("simple", f"log_prob@{kind}", case, f"log_prob {lp} != {want}")
                                # history independence (same instance, same arguments)
                                key = (mode, tuple(sorted((f, np.asarray(v).tobytes()) for f, v in p.items())), tuple(np.asarray(get(kind, cur, f)).tobytes() for f in flds))
                                dg = tuple(np.asarray(get(kind, new, f)).tobytes() for f in flds)
                                if table.setdefault(key, dg) != dg:
                                    fail("simple", f"history@{kind}/{mode}", case, "same arguments, different result")
                                res.outcome("simple", kind, mode, len(sub), step)
                                cur = new
                            res.executions += 1
        res.states += len(table)
        # unknown key must not be silently accepted by the dataclass interface
        if kind in ("dc", "dcp"):
            try:
                itf.update_state({"nope": 1.0}, mk(kind, base_vals))
                fail("simple", "unknown-key@dc", {}, "DataclassInterface accepted a key that is not a field")
            except RuntimeError:
                pass
    # a state dataclass with a NESTED dataclass field (and a list of them): the fields are
    # opaque values for the interface - put/get must hand back the very objects
    @dataclasses.dataclass
    class Inner:
        a: float
        b: tuple

    @dataclasses.dataclass
    class DCN:
        x: object
        inner: object
        many: object

    itf = gs.DataclassInterface(lambda s: jnp.sum(s.x))
    inner_vals = [Inner(1.0, (2.0, 3.0)), Inner(-4.0, (0.5,))]
    many_vals = [[Inner(0.0, ())], [Inner(1.5, (1.0,)), Inner(2.5, ())]]
    x_vals = [jnp.asarray([0.25, -1.5], dtype=jnp.float32), jnp.asarray([2.0, 0.5], dtype=jnp.float32)]
    nfields = ("x", "inner", "many")
    menu = {"x": x_vals, "inner": inner_vals, "many": many_vals}
    for sub in [c for r in range(0, 4) for c in itertools.combinations(nfields, r)]:
        for i in (0, 1):
            s0 = DCN(x_vals[1 - i], inner_vals[1 - i], many_vals[1 - i])
            before = {f: getattr(s0, f) for f in nfields}
            p = {f: menu[f][i] for f in sub}
            case = {"interface": "dcn", "keys": list(sub), "i": i}
            try:
                new = _guard(itf.update_state, p, s0)
                got_new = _guard(itf.extract_position, list(nfields), new)
                got_old = _guard(itf.extract_position, list(nfields), s0)
            except LieselRaised as e:
                fail("simple", "raises@dcn", case, f"nested-dataclass state: {e}")
                continue
            res.transitions += 1
            res.executions += 1
            for f in nfields:
                want = p[f] if f in sub else before[f]
                if got_new[f] is not want:
                    fail("simple", f"{'put-get' if f in sub else 'frame'}:{f}@dcn", case,
                         f"extract_position gives {f} = {got_new[f]!r} ({type(got_new[f]).__name__}) but the state holds {want!r}")
                if got_old[f] is not before[f] or getattr(s0, f) is not before[f]:
                    fail("simple", f"input:{f}@dcn", case, f"field {f} of the input state: {got_old[f]!r} instead of the object {before[f]!r}")
            res.outcome("simple", "dcn", len(sub), i)
    # a state dataclass registered as a pytree whose class carries a plain class-level default that is
    # NOT a declared field (the interface accepts every attribute the state has): the put/get law must
    # hold in the same way eagerly, under jit and under vmap, for every subset of keys
    from liesel.goose.pytree import register_dataclass_as_pytree

    @register_dataclass_as_pytree
    @dataclasses.dataclass
    class DCA:
        x: object
        loc: object
        temperature = 1.0  # no annotation: a class attribute, not a dataclass field

    itf = gs.DataclassInterface(lambda st: -jnp.sum((st.x - st.loc) ** 2) / st.temperature)
    akeys = ("x", "loc", "temperature")
    amenu = {"x": jnp.asarray([0.5, -1.0], jnp.float32), "loc": jnp.float32(0.75), "temperature": jnp.float32(4.0)}
    for sub in [c for r in range(1, 4) for c in itertools.combinations(akeys, r)]:
        s0 = DCA(x=jnp.asarray([-1.0, 2.0], jnp.float32), loc=jnp.float32(0.5))
        p = {k: amenu[k] for k in sub}
        want = {k: np.asarray(p[k] if k in sub else getattr(s0, k)).tolist() for k in akeys}
        want_lp = float(-np.sum((np.asarray(want["x"]) - want["loc"]) ** 2) / want["temperature"])
        for mode in ("eager", "jit", "vmap"):
            case = {"interface": "dca", "keys": list(sub), "mode": mode}
            try:
                if mode == "eager":
                    new = _guard(itf.update_state, p, s0)
                    got = _guard(itf.extract_position, list(akeys), new)
                    lp = float(_guard(itf.log_prob, new))
                elif mode == "jit":
                    new = _guard(jax.jit(itf.update_state), p, s0)
                    got = _guard(itf.extract_position, list(akeys), new)
                    lp = float(_guard(jax.jit(itf.log_prob), new))
                else:
                    ps = {k: jnp.stack([v, v]) for k, v in p.items()}
                    ss = jax.tree_util.tree_map(lambda a: jnp.stack([a, a]), s0)
                    new = _guard(jax.vmap(itf.update_state), ps, ss)
                    got = {k: jnp.asarray(v)[1] if np.ndim(v) > np.ndim(want[k]) else v for k, v in _guard(itf.extract_position, list(akeys), new).items()}
                    lp = float(_guard(jax.vmap(itf.log_prob), new)[1])
            except LieselRaised as e:
                fail("simple", f"raises@dca-{mode}", case, f"dataclass state with a non-field class attribute: {e}")
                continue
            res.transitions += 1
            res.executions += 1
            for k in akeys:
                if np.asarray(got[k]).tolist() != want[k]:
                    fail("simple", f"{'put-get' if k in sub else 'frame'}:{k}@dca-{mode}", case, f"[{mode}] after update_state({list(sub)}) extract_position gives {k} = {np.asarray(got[k]).tolist()}, expected {want[k]}")
            if abs(lp - want_lp) > 1e-5 * (1 + abs(want_lp)):
                fail("simple", f"log-prob@dca-{mode}", case, f"[{mode}] log_prob of the updated state is {lp}, the state that was put gives {want_lp}")
            res.outcome("simple", "dca", len(sub), mode)
    res.note(["simple", res.transitions, res.executions])
    res.sample({"simple_interfaces": list(kinds) + ["dcn", "dca"], "key_subsets": {k: 2 ** len(v) for k, v in kfields.items()}, "chains": res.executions})


_CACHE_DIR = None


def _compile_cache():
    """Per-process XLA compilation cache (deleted at exit): every history re-jits
    update_state on a fresh interface; identical programs need not be re-compiled."""
    global _CACHE_DIR
    if _CACHE_DIR is None:
        import atexit
        import shutil
        import tempfile

        import jax

        _CACHE_DIR = tempfile.mkdtemp(prefix="c03_xla_")
        atexit.register(shutil.rmtree, _CACHE_DIR, True)
        jax.config.update("jax_compilation_cache_dir", _CACHE_DIR)
        jax.config.update("jax_persistent_cache_min_compile_time_secs", 0)
        jax.config.update("jax_persistent_cache_min_entry_size_bytes", -1)


def run_unit(unit):
    core.assert_repo()
    import warnings

    from mc import seams

    warnings.simplefilter("ignore")
    _compile_cache()
    res = core.UnitResult(unit)
    with seams.quiet():
        if unit["part"] == "simple":
            simple_interfaces(res, unit)
        else:
            explore(res, unit, None)
    return res
